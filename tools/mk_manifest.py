#!/usr/bin/env python3
"""Regenerates /verif/MANIFEST.json from the table below (keep it valid at all times)."""
import json, os
ROOT = os.path.dirname(os.path.dirname(os.path.abspath(__file__)))
ALL = [f"C{i:02d}" for i in range(1, 21)]

# property -> (package, level text, level note, technique)
CLAIMED = {
 "C03": ("fileset",
  "Lean 4 theorems (C03_query_spec, C03_point_spec, C03_contains_iff, C03_build_total, C03_match_spec) prove for every finite list of closed intervals over any linear order and every query that the centred-interval-tree model returns exactly the overlapping indices, each once, and that the match model pairs exactly the widened-overlapping files; the model is tied to typhon/trees.py and FileSet.match on every run by a correspondence check (same inputs through the compiled Lean driver and the real code) plus a brute-force oracle on the real code.",
  "Trusted: Lean kernel, propext/Classical.choice/Quot.sound, the hand-written model + correspondence sampling (numpy primitives modelled, not verified); find() results feeding match() are taken from the real code (C01).",
  "Lean 4 proof about a hand-written executable model + differential correspondence with the implementation"),
 "C09": ("numeric",
  "Lean 4 theorems about the real-number reading of typhon/physics/atmosphere.py that tools/py2lean REGENERATES from /repo on every run (30 theorems: the six converter inverses, all six two-step routes, 0->0, ranges, strict monotonicity of all six converters, positivity and the rejection guard of the Murphy-Koop formulas, strict monotonicity of e_eq_ice_mk on [100,400] K, the three branches / continuity at both branch temperatures / betweenness of e_eq_mixed_mk, RH<->vmr inverses for any saturation function, 0 < moist lapse rate < g/cp and its dry limit).  A source change that breaks a law breaks a proof; the check then searches the real code for a failing input with an exact-Fraction / longdouble oracle.",
  "Trusted: Lean kernel + 3 standard axioms; the translator tools/py2lean (validated each run by cross-running the Float reading of the same AST against numpy); floating point, numpy broadcasting and masks are modelled pointwise, not verified.  NOT proved (swept numerically only): monotonicity of e_eq_water_mk, ice <= liquid below the triple point and their 1e-6 agreement there.",
  "Lean 4 proof over a model regenerated from the source by a translator (py2lean) + Float cross-run + exact oracle"),
 "C08": ("numeric",
  "Lean 4 theorems about the real-number reading of typhon/physics/em.py regenerated from /repo by tools/py2lean on every run (20 theorems: planck positive, strictly increasing in T, <= Rayleigh-Jeans, ratio x/(e^x-1) -> 1 as hf/kT -> 0 (Filter.Tendsto), radiance2planckTb and radiance2rayleighjeansTb invert planck / rayleighjeans, wavelength and wavenumber forms, all six unit converters mutually inverse and consistent, pointwise inverses of the four spectral-density converters and that they map planck onto planck_wavelength / planck_wavenumber, Snell's law without total reflection, |Rv|,|Rh| <= 1, |Rv| = |Rh| at normal incidence and Rv = 0 at the Brewster angle for real indices).  A breaking source change breaks a proof; the check then finds a failing input on the real code with a longdouble expm1/log1p oracle.",
  "Trusted: Lean kernel + 3 standard axioms; translator tools/py2lean (Float cross-run against numpy each run).  Float cancellation, array reversal/reshape glue of the density converters, NaN beyond total reflection and complex refractive indices are validated by the harness only.",
  "Lean 4 proof over a model regenerated from the source by a translator (py2lean) + Float cross-run + high-precision oracle"),
 "C19": ("numeric",
  "Lean 4 theorems about the pointwise terms of typhon/retrieval/scores.py regenerated from /repo by tools/py2lean on every run: quantile_score is the pinball loss (tau|d| below, (1-tau)|d| above, non-negative, zero iff equal) and - for EVERY finite sample and tau in [0,1] - any constant c with #{y<c} <= tau n <= #{y<=c} minimises mean_quantile_score (C19_minimiser_is_quantile, by summing per-point sub-gradient inequalities over the list); mape and bias are 0 for perfect predictions, p / +-p for uniform p% offsets, permutation- and scale-invariant.  A breaking source change breaks a proof; the check then finds a failing sample on the real code with an exact-Fraction oracle.",
  "Trusted: Lean kernel + 3 standard axioms; translator tools/py2lean incl. its reading of the top-level np.mean/np.nanmean as the mean of the emitted pointwise term (Float cross-run + array-level oracle each run).  Array reshaping for (n,), (n,1), (n,k) and the ValueError for inconsistent shapes are glue exercised by the harness only.",
  "Lean 4 proof over a model regenerated from the source by a translator (py2lean) + Float cross-run + exact oracle"),
 "C14": ("numeric",
  "Lean 4 theorems about the array-level model Model/Column.lean (trapezoid rule, IWV, CRH, pressure2height, linear interpolation) instantiated with the scalar converters regenerated from /repo by tools/py2lean: integrate_column is linear in y, additive when split at a grid point, changes sign under reversal, defaults to unit spacing, and each trapezoid is the exact interval integral of the linear interpolant (C14_segment_integral); hydrostatic IWV >= 0 for 0 <= vmr < 1 and decreasing pressure; CRH is the ratio of the pressure integrals of q and q_s (using the C09 inverses), equals 1 for a saturated profile and is linear in q; pressure2height starts at 0 and is strictly increasing for strictly decreasing pressure; the interpolant reproduces every node of a strictly increasing table.  The model is run with Float on the same inputs as the real code on every run (correspondence) and an exact-Fraction / grid-refinement oracle checks the real code.",
  "Trusted: Lean kernel + 3 standard axioms; hand-written Model/Column.lean + correspondence sampling; translator for the scalar converters.  NOT proved (refinement limits, checked numerically with error ratio ~4 per halving): convergence of hydrostatic vs general IWV, isothermal pressure2height -> (RT/g)ln(p0/p).  Axis handling of n-d arrays is exercised by the harness only.",
  "Lean 4 proof about a hand-written polymorphic model (run with Float for correspondence) + translator-regenerated scalar functions + exact oracle"),
 "C02": ("fileset",
  "Lean 4 theorems about the hand-written model of get_filename / the compiled template regex / parse_filename / _to_datetime_args / _retrieve_time_coverage / get_info (Model/Digits, Time, Template): zero-padded digit round trip, day-of-year and year2 (1965..2064) round trips, toMicros strictly monotone with inverse, C02_fields_recovered (every template of literals and fixed-width temporal placeholders, repeated placeholders allowed, any length: the generated name parses back to every placeholder string), C02_no_misparse (matcher soundness for the whole regex fragment incl. lazy, alternation and class items), C02_rejected, unknown/unfilled placeholder errors, C02_start_roundtrip, C02_end_full, C02_end_default, handler override.  PARTIAL: the final '+1 day' assembly of C02_end_partial and variable-width user placeholders are validated by correspondence/oracle only (exhaustive sweep of every day 1965-2064 and every midnight in the thorough tier).  The model is tied to the code by running driver drv_c02 and the real FileSet on the same templates/periods each run.",
  "Trusted: Lean kernel + 3 standard axioms; hand-written model + correspondence sampling; Python re beyond the modelled fragment, str.format, the harness rendering of token lists to template strings.",
  "Lean 4 proof about a hand-written executable model + differential correspondence with the implementation"),
 "C17": ("oem",
  "Lean 4 theorems (Mathlib Matrix / PosDef) about the matrix expressions that tools/py2lean/py2lean_matrix.py REGENERATES from typhon/retrieval/oem/{common,error}.py on every run: S = (K^T S_y^-1 K + S_a^-1)^-1, S symmetric positive definite and S <= S_a (Loewner) for ANY K incl. rank-deficient and zero, gain in n-form and m-form (push-through identity), A = G K = 1 - S S_a^-1, every eigenvalue of A real and in [0,1), A -> 1 for vanishing noise (injective K) and A -> 0 for vanishing prior (Filter.Tendsto), linearity of smoothing_error / retrieval_noise, and a guard theorem that every inverted matrix has a unit determinant (so Mathlib's junk inverse never carries a theorem).  Nothing is partial.  A breaking source change breaks a proof; the check then finds a failing input with exact-Fraction and condition-scaled double oracles.",
  "Trusted: Lean kernel + 3 standard axioms; the matrix translator (validated each run by cross-running its exact-Fraction Python back-end against the real code); LAPACK/BLAS rounding is validated with condition-number-scaled bounds, not proved.",
  "Lean 4 proof over matrix expressions regenerated from the source by a translator + exact-Fraction cross-run + numeric oracle"),
}
NOT_YET = "no Lean model built yet for this property (under construction; see DESIGN.md section 6) - not claimed rather than served by another technique"

def main():
    checks = []
    for p in ALL:
        if p not in CLAIMED:
            continue
        pkg, text, note, tech = CLAIMED[p]
        checks.append({
            "property_id": p,
            "quick_cmd": f"bin/check {p} --tier quick",
            "thorough_cmd": f"bin/check {p} --tier thorough",
            "evidence_file": f"evidence/{p}.json",
            "replay_cmd_template": f"bin/check {p} --replay {{path}}",
            "engine": f"lean-{pkg}",
            "level_claimed": {"category": "proof", "text": text, "design_ref": f"DESIGN.md section 6 ({p})"},
            "level_note": note,
            "technique": tech,
        })
    pkgs = sorted({CLAIMED[p][0] for p in CLAIMED})
    man = {
        "version": 1,
        "setup_cmd": "bin/setup",
        "hooks": {
            "guard": "TYPHON_VERIF",
            "enable": "no source hooks are needed: the harness wraps module-level names of typhon from outside (in-process monkeypatching); the guard variable is reserved and unused",
            "baseline_off_cmd": "cd /repo && /venv/bin/python -m pytest -ra -q -p no:cacheprovider --timeout=900 --continue-on-collection-errors",
            "source_commits": [],
            "add_only": True,
        },
        "engines": [{"name": f"lean-{k}", "path": f"lean/{k}",
                     "serves_properties": [p for p in ALL if p in CLAIMED and CLAIMED[p][0] == k],
                     "kind_free_text": "Lean 4 package: executable model (core Lean), property theorems (Mathlib), compiled line-protocol driver; driven by tools/harness"}
                    for k in pkgs],
        "checks": checks,
        "notes": "All checks: bin/check <id> [--tier quick|thorough] [--seed N]; VERIF_SEED/VERIF_TIER honoured. Exit 0 ok, 1 VIOLATION line, 2 infrastructure error. fix: commits in /repo are listed in known_findings.json.",
        "not_applicable": [{"property_id": p, "reason": NOT_YET} for p in ALL if p not in CLAIMED],
    }
    json.dump(man, open(os.path.join(ROOT, "MANIFEST.json"), "w"), indent=1)
    print("claimed:", [c["property_id"] for c in checks])

if __name__ == "__main__":
    main()
