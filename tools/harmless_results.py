#!/usr/bin/env python3
"""Runs bin/harmlesstest on every harmless/<id>/ (or the ones given) and records the outcome in its
meta.json (keys check_result, verdict).  verdict: 'green' (check exit 0), 'tie-broken' (VIOLATION ...
no-failing-input-found: a proof or the translator tie broke on a behaviour-preserving rewrite — allowed,
but the price of the tie), 'FALSE-ALARM' (VIOLATION with a failing input although the behaviour is
unchanged)."""
import glob, json, os, subprocess, sys
ROOT = os.path.dirname(os.path.dirname(os.path.abspath(__file__)))
dirs = [os.path.join(ROOT, "harmless", a) for a in sys.argv[1:]] or sorted(glob.glob(os.path.join(ROOT, "harmless", "*")))
for d in dirs:
    if not os.path.exists(os.path.join(d, "meta.json")):
        continue
    p = subprocess.run([os.path.join(ROOT, "bin", "harmlesstest"), d], capture_output=True, text=True)
    line = (p.stdout.strip().splitlines() or [""])[-1]
    meta = json.load(open(os.path.join(d, "meta.json")))
    meta["check_result"] = line[:400]
    if p.returncode == 0:
        v = "green"
    elif "no-failing-input-found" in line:
        v = "tie-broken"
    elif "VIOLATION" in line:
        v = "FALSE-ALARM"
    else:
        v = "error"
    meta["verdict"] = v
    json.dump(meta, open(os.path.join(d, "meta.json"), "w"), indent=1)
    print(os.path.basename(d), "->", v, "::", line[:200])
