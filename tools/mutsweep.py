#!/venv/bin/python
"""Automated mutation sweep for the property checks in /verif.

For a property Cnn the functions named in tools/harness/anchors/Cnn.json are mutated (single-point AST
mutants, one per scratch-worktree state), the library's own test-suite is used as a first filter and the
property's quick check is then run against the worktree:

    killed-by-tests   module no longer imports / test-suite result differs from the baseline
    caught            bin/check exits 1 with a VIOLATION line (no_input=True: `... no-failing-input-found`)
    survived          bin/check exits 0 (OK line)
    infra             exit 2 / time-out / anything else

usage:  /venv/bin/python tools/mutsweep.py [--props C01,C07] [--per-prop 12] [--seed 0] [--jobs 6]
                                            [--out tools/mutsweep_results.json] [--resume] [--list] [--identity]
        /venv/bin/python tools/mutsweep.py --apply C04-06 --worktree /tmp/wt     (re-create one mutant by hand)

/repo itself is never touched: every property gets its own `git worktree` under /tmp/mut (removed at the end).
"""
import argparse
import ast
import copy
import json
import os
import random
import re
import shutil
import signal
import subprocess
import sys
import tempfile
import threading
import time
import warnings
from concurrent.futures import ThreadPoolExecutor

warnings.filterwarnings("ignore", category=SyntaxWarning)   # typhon doc-strings contain invalid escape sequences

VERIF = os.path.dirname(os.path.dirname(os.path.abspath(__file__)))
REPO = "/repo"
PY = "/venv/bin/python"
MUTROOT = "/tmp/mut"
PACKAGES = {
    "find": ["C01", "C16"], "fileset": ["C02", "C03"], "colloc": ["C04", "C06"], "cfiles": ["C05"],
    "geodesy": ["C07"], "numeric": ["C08", "C09", "C14", "C19"], "pool": ["C10"],
    "fsops": ["C11", "C12", "C15"], "compact": ["C13"], "oem": ["C17"], "bmci": ["C18"], "srtm": ["C20"],
}
PKG_OF = {p: k for k, v in PACKAGES.items() for p in v}
TRANSLATOR_TIED = {"C07", "C08", "C09", "C14", "C17", "C19"}
ALL_PROPS = [f"C{i:02d}" for i in range(1, 21)]

# ----------------------------------------------------------------------------------------------- operators
CMP = {ast.Lt: [ast.LtE, ast.Gt], ast.LtE: [ast.Lt], ast.Gt: [ast.GtE, ast.Lt], ast.GtE: [ast.Gt],
       ast.Eq: [ast.NotEq], ast.NotEq: [ast.Eq]}
CMP_SYM = {ast.Lt: "<", ast.LtE: "<=", ast.Gt: ">", ast.GtE: ">=", ast.Eq: "==", ast.NotEq: "!="}
ARITH = {ast.Add: ast.Sub, ast.Sub: ast.Add, ast.Mult: ast.Div, ast.Div: ast.Mult}
ARITH_SYM = {ast.Add: "+", ast.Sub: "-", ast.Mult: "*", ast.Div: "/", ast.BitAnd: "&", ast.BitOr: "|"}
BITBOOL = {ast.BitAnd: ast.BitOr, ast.BitOr: ast.BitAnd}
DUAL_FN = {}
for a, b in [("min", "max"), ("amin", "amax"), ("nanmin", "nanmax"), ("minimum", "maximum"),
             ("argmin", "argmax"), ("nanargmin", "nanargmax"), ("fmin", "fmax"), ("floor", "ceil"),
             ("idxmin", "idxmax")]:
    DUAL_FN[a] = b
    DUAL_FN[b] = a
ANYALL = {"any": "all", "all": "any"}
NANFN = {"nan" + f: f for f in ["mean", "sum", "std", "var", "min", "max", "median", "argmin", "argmax",
                                 "percentile", "quantile", "prod", "cumsum"]}
NO_ARGSWAP = {"isinstance", "issubclass", "getattr", "setattr", "hasattr", "super", "print", "range",
              "format", "join", "ValueError", "TypeError", "KeyError", "warn", "debug", "info", "zip",
              "enumerate", "map", "filter", "open", "sorted", "replace", "sub", "compile"}

OPERATORS = [
    ("cmp-flip", "comparison operator: < <-> <=, > <-> >=, == <-> !=, < -> >, > -> <"),
    ("arith-swap", "arithmetic operator: + <-> -, * <-> / (binary and augmented assignment)"),
    ("const", "numeric constant: c -> c+1, c -> c*(1+1e-3), 0 <-> 1, c -> -c"),
    ("neg-test", "boolean negation of an if / while / conditional-expression test"),
    ("and-or", "`and` <-> `or`, `&` <-> `|`"),
    ("del-stmt", "delete one assignment-free expression statement (replaced by `pass`)"),
    ("del-guard", "delete an `if ...: raise` guard (replaced by `pass`)"),
    ("min-max", "min <-> max (also amin/amax, nanmin/nanmax, minimum/maximum, argmin/argmax, floor/ceil)"),
    ("any-all", "any <-> all (builtin, numpy function, method)"),
    ("off-by-one", "slices/ranges/indices: [1:] <-> [:-1], k+1 -> k, bound e -> e+1, range(n) -> range(n-1)"),
    ("arg-swap", "swap two neighbouring positional arguments of one call"),
    ("axis", "keyword axis=0 <-> axis=1"),
    ("nan-fn", "np.nanmean -> np.mean (also nansum, nanstd, nanmin, ...)"),
    ("copy-removed", "x.copy() -> x, copy.deepcopy(x) -> x, np.copy(x) -> x"),
    ("side", "keyword side='left' <-> side='right'"),
]


def resolve(tree, qualname):
    """same resolution as vlib.ast_hash: first definition of each name part in breadth-first order"""
    node = tree
    if qualname:
        for part in qualname.split("."):
            found = None
            for ch in ast.walk(node):
                if isinstance(ch, (ast.FunctionDef, ast.ClassDef, ast.AsyncFunctionDef)) and ch.name == part:
                    found = ch
                    break
            if found is None:
                return None
            node = found
    return node


def is_docstring(stmt):
    return isinstance(stmt, ast.Expr) and isinstance(stmt.value, ast.Constant) and isinstance(stmt.value.value, str)


def num_node(v):
    """AST of the numeric literal v (negative numbers as unary minus, like the parser gives them)"""
    if isinstance(v, (int, float)) and v < 0:
        return ast.UnaryOp(op=ast.USub(), operand=ast.Constant(value=-v))
    return ast.Constant(value=v)


class Site:
    __slots__ = ("op", "variant", "lineno", "col", "func", "apply", "stmt", "whole")

    def __init__(self, op, variant, node, func, apply, stmt, whole=False):
        self.op, self.variant, self.func, self.apply, self.stmt, self.whole = op, variant, func, apply, stmt, whole
        self.lineno, self.col = getattr(node, "lineno", 0), getattr(node, "col_offset", 0)

    def key(self):
        return (self.op, self.variant, self.lineno, self.col)


def snippet(stmt):
    """source of a simple statement, header line of a compound one"""
    txt = ast.unparse(stmt)
    if isinstance(stmt, (ast.If, ast.While, ast.For, ast.With, ast.Try, ast.FunctionDef, ast.ClassDef,
                         ast.AsyncFunctionDef, ast.AsyncFor, ast.AsyncWith)):
        lines = [l for l in txt.split("\n") if not l.lstrip().startswith("@")]
        return lines[0]
    return txt if len(txt) < 600 else txt[:600] + " ..."


def enum_sites(root, qualname):
    """all single-point mutants inside `root` (function / class / module node), in source order"""
    parent = {}
    for node in ast.walk(root):
        for field, value in ast.iter_fields(node):
            if isinstance(value, list):
                for i, ch in enumerate(value):
                    if isinstance(ch, ast.AST):
                        parent[ch] = (node, field, i)
            elif isinstance(value, ast.AST):
                parent[value] = (node, field, None)

    def replace(old, new):
        p, field, i = parent[old]
        ast.copy_location(new, old)
        if i is None:
            setattr(p, field, new)
        else:
            getattr(p, field)[i] = new
        parent[new] = (p, field, i)

    def stmt_of(node):
        while not isinstance(node, ast.stmt):
            node = parent[node][0]
        return node

    def context(node):
        """'index' when the node sits in a subscript / slice / range() argument"""
        ch = node
        while ch in parent and not isinstance(ch, ast.stmt):
            p, field, _ = parent[ch]
            if isinstance(p, ast.Subscript) and field == "slice":
                return "index"
            if isinstance(p, ast.Slice):
                return "index"
            if isinstance(p, ast.Call) and field == "args" and fname(p.func) in ("range", "arange"):
                return "index"
            if isinstance(p, (ast.Call, ast.Lambda)):
                return None
            ch = p
        return None

    def fname(f):
        return f.id if isinstance(f, ast.Name) else f.attr if isinstance(f, ast.Attribute) else None

    sites = []

    def add(op, variant, node, fn, whole=False):
        sites.append(Site(op, variant, node, qualname, fn, stmt_of(node), whole))

    def body_nodes(n):
        """DFS in source order over the bodies only (not decorators / argument defaults of the anchored def)"""
        if n is root and isinstance(n, (ast.FunctionDef, ast.AsyncFunctionDef, ast.ClassDef, ast.Module)):
            start = n.body
        else:
            start = [n]
        stack = list(reversed(start))
        while stack:
            x = stack.pop()
            yield x
            stack.extend(reversed(list(ast.iter_child_nodes(x))))

    doc = set()
    for n in ast.walk(root):
        if isinstance(n, (ast.FunctionDef, ast.AsyncFunctionDef, ast.ClassDef, ast.Module)) and n.body and is_docstring(n.body[0]):
            doc.add(n.body[0])

    def is_one(e):
        return isinstance(e, ast.Constant) and type(e.value) is int and e.value == 1

    def pm_one(e):
        return isinstance(e, ast.BinOp) and isinstance(e.op, (ast.Add, ast.Sub)) and is_one(e.right)

    for node in body_nodes(root):
        # ---- comparison flips
        if isinstance(node, ast.Compare):
            for i, op in enumerate(node.ops):
                for new in CMP.get(type(op), []):
                    add("cmp-flip", f"{CMP_SYM[type(op)]} -> {CMP_SYM[new]}", node,
                        (lambda n=node, i=i, new=new: n.ops.__setitem__(i, new())))
        # ---- arithmetic swaps
        if isinstance(node, (ast.BinOp, ast.AugAssign)):
            t = type(node.op)
            strs = [x for x in ([node.left, node.right] if isinstance(node, ast.BinOp) else [node.value])
                    if isinstance(x, ast.JoinedStr) or (isinstance(x, ast.Constant) and isinstance(x.value, (str, bytes)))]
            if t in ARITH and not strs:
                add("arith-swap", f"{ARITH_SYM[t]} -> {ARITH_SYM[ARITH[t]]}", node,
                    (lambda n=node, new=ARITH[t]: setattr(n, "op", new())))
            if t in BITBOOL:
                add("and-or", f"{ARITH_SYM[t]} -> {ARITH_SYM[BITBOOL[t]]}", node,
                    (lambda n=node, new=BITBOOL[t]: setattr(n, "op", new())))
        # ---- numeric constants
        if isinstance(node, ast.Constant) and type(node.value) in (int, float):
            p, field, _ = parent[node]
            target, v = node, node.value
            if isinstance(p, ast.UnaryOp) and isinstance(p.op, ast.USub):
                target, v = p, -node.value
            tp = parent[target][0]
            if isinstance(tp, ast.keyword) and tp.arg == "axis":
                pass
            else:
                variants = []
                if v == 0:
                    variants.append(("0 -> 1", 1 if type(v) is int else 1.0))
                else:
                    variants.append(("c -> c+1", v + 1))
                    if v == 1:
                        variants.append(("1 -> 0", 0 if type(v) is int else 0.0))
                    variants.append(("c -> -c", -v))
                    if type(v) is float or abs(v) >= 10:
                        variants.append(("c -> c*(1+1e-3)", v * (1 + 1e-3)))
                for name, nv in variants:
                    add("const", name, target, (lambda t=target, nv=nv: replace(t, num_node(nv))))
        # ---- negated tests
        if isinstance(node, (ast.If, ast.While, ast.IfExp)):
            def neg(n=node):
                if isinstance(n.test, ast.UnaryOp) and isinstance(n.test.op, ast.Not):
                    n.test = n.test.operand
                else:
                    n.test = ast.copy_location(ast.UnaryOp(op=ast.Not(), operand=n.test), n.test)
            add("neg-test", {ast.If: "if", ast.While: "while", ast.IfExp: "ifexp"}[type(node)], node, neg)
        # ---- and / or
        if isinstance(node, ast.BoolOp):
            new = ast.Or if isinstance(node.op, ast.And) else ast.And
            add("and-or", "and -> or" if new is ast.Or else "or -> and", node,
                (lambda n=node, new=new: setattr(n, "op", new())))
        # ---- statement deletion
        if isinstance(node, ast.Expr) and node not in doc and not isinstance(node.value, (ast.Yield, ast.YieldFrom, ast.Await)):
            add("del-stmt", "expr-stmt -> pass", node, (lambda n=node: replace(n, ast.Pass())), whole=True)
        if isinstance(node, ast.If) and not node.orelse and len(node.body) == 1 and isinstance(node.body[0], ast.Raise):
            add("del-guard", "if-raise -> pass", node, (lambda n=node: replace(n, ast.Pass())), whole=True)
        # ---- function duals
        if isinstance(node, ast.Call):
            f = node.func
            nm = fname(f)
            for table, op in ((DUAL_FN, "min-max"), (ANYALL, "any-all")):
                if nm in table:
                    add(op, f"{nm} -> {table[nm]}", node,
                        (lambda f=f, new=table[nm]: setattr(f, "id" if isinstance(f, ast.Name) else "attr", new)))
            # copies
            if isinstance(f, ast.Attribute) and f.attr == "copy" and not node.args and not node.keywords:
                add("copy-removed", ".copy() removed", node, (lambda n=node, f=f: replace(n, f.value)))
            elif isinstance(f, ast.Attribute) and f.attr in ("copy", "deepcopy") and isinstance(f.value, ast.Name) \
                    and f.value.id in ("np", "numpy", "copy") and len(node.args) == 1:
                add("copy-removed", f"{f.value.id}.{f.attr}(x) -> x", node, (lambda n=node: replace(n, n.args[0])))
            elif isinstance(f, ast.Name) and f.id == "deepcopy" and len(node.args) == 1:
                add("copy-removed", "deepcopy(x) -> x", node, (lambda n=node: replace(n, n.args[0])))
            # argument swaps
            if len(node.args) >= 2 and nm not in NO_ARGSWAP and not any(isinstance(a, ast.Starred) for a in node.args):
                for i in range(min(len(node.args) - 1, 2)):
                    if ast.dump(node.args[i]) != ast.dump(node.args[i + 1]):
                        def swap(n=node, i=i):
                            n.args[i], n.args[i + 1] = n.args[i + 1], n.args[i]
                        add("arg-swap", f"args {i}<->{i + 1}", node, swap)
            # keywords
            for kw in node.keywords:
                if kw.arg == "axis" and isinstance(kw.value, ast.Constant) and kw.value.value in (0, 1) \
                        and type(kw.value.value) is int:
                    add("axis", f"axis={kw.value.value} -> {1 - kw.value.value}", node,
                        (lambda k=kw: setattr(k, "value", ast.Constant(value=1 - k.value.value))))
                if kw.arg == "side" and isinstance(kw.value, ast.Constant) and kw.value.value in ("left", "right"):
                    add("side", f"side={kw.value.value}", node,
                        (lambda k=kw: setattr(k, "value", ast.Constant(value="right" if k.value.value == "left" else "left"))))
            # range(n) -> range(n-1)
            if nm in ("range", "arange") and node.args and not node.keywords:
                last = node.args[-1] if len(node.args) < 3 else node.args[1]
                if not pm_one(last) and not isinstance(last, ast.Constant):
                    add("off-by-one", "range(.., n) -> range(.., n-1)", node,
                        (lambda l=last: replace(l, ast.BinOp(left=copy.deepcopy(l), op=ast.Sub(), right=ast.Constant(value=1)))))
        # ---- nan-functions
        if isinstance(node, ast.Attribute) and node.attr in NANFN:
            add("nan-fn", f"{node.attr} -> {NANFN[node.attr]}", node, (lambda n=node: setattr(n, "attr", NANFN[n.attr])))
        # ---- off by one
        if isinstance(node, ast.Slice):
            lo, up, st = node.lower, node.upper, node.step
            if st is None and is_one(lo) and up is None:
                def f1(n=node):
                    n.lower, n.upper = None, num_node(-1)
                add("off-by-one", "[1:] -> [:-1]", node, f1)
            elif st is None and lo is None and isinstance(up, ast.UnaryOp) and isinstance(up.op, ast.USub) and is_one(up.operand):
                def f2(n=node):
                    n.lower, n.upper = ast.Constant(value=1), None
                add("off-by-one", "[:-1] -> [1:]", node, f2)
            for which in ("lower", "upper"):
                e = getattr(node, which)
                if e is not None and not pm_one(e) and not isinstance(e, ast.Constant) \
                        and not (isinstance(e, ast.UnaryOp) and isinstance(e.operand, ast.Constant)):
                    add("off-by-one", f"slice {which} e -> e+1", node,
                        (lambda n=node, w=which: setattr(n, w, ast.BinOp(left=getattr(n, w), op=ast.Add(), right=ast.Constant(value=1)))))
        if pm_one(node) and context(node) == "index":
            add("off-by-one", f"k{'+' if isinstance(node.op, ast.Add) else '-'}1 -> k", node,
                (lambda n=node: replace(n, n.left)))
    return sites


def anchored(prop):
    """[(relpath, qualname)] of the property, from the recorded anchor baseline"""
    d = json.load(open(os.path.join(VERIF, "tools", "harness", "anchors", f"{prop}.json")))
    out = []
    for k in sorted(d):
        rel, q = k.split("::", 1)
        out.append((rel, q))
    return out


def all_sites(prop, srcroot):
    """[(relpath, qualname, index in enum_sites, Site)], de-duplicated over nested anchors.  A whole-module
    anchor (empty qualname, e.g. typhon/constants.py) contributes only the top-level assignments whose name
    is used inside the other anchored definitions of the property."""
    res = []
    seen = set()
    used = set()
    trees = {}
    for rel, q in anchored(prop):
        path = os.path.join(srcroot, rel)
        if not os.path.exists(path):
            continue
        trees[rel] = ast.parse(open(path, encoding="utf-8").read())
        root = resolve(trees[rel], q)
        if q and root is not None:
            for n in ast.walk(root):
                if isinstance(n, ast.Name):
                    used.add(n.id)
                elif isinstance(n, ast.Attribute):
                    used.add(n.attr)
    for rel, q in anchored(prop):
        if rel not in trees:
            continue
        root = resolve(trees[rel], q)
        if root is None:
            continue
        for k, s in enumerate(enum_sites(root, q)):
            if not q:
                st = s.stmt
                names = {t.id for t in getattr(st, "targets", []) if isinstance(t, ast.Name)}
                if not (isinstance(st, ast.Assign) and names & used):
                    continue
            key = (rel,) + s.key()
            if key in seen:
                continue
            seen.add(key)
            res.append((rel, q, k, s))
    return res


def sample(prop, srcroot, n, seed):
    """deterministic, stratified by operator (round robin over a shuffled operator list), inside an
    operator preferring functions that were hit least so far"""
    rng = random.Random(f"{seed}:{prop}")
    sites = all_sites(prop, srcroot)
    by_op = {}
    for item in sites:
        by_op.setdefault(item[3].op, []).append(item)
    ops = sorted(by_op)
    rng.shuffle(ops)
    used_fn = {}
    chosen = []
    while len(chosen) < n and any(by_op[o] for o in ops):
        for o in ops:
            pool = by_op[o]
            if not pool or len(chosen) >= n:
                continue
            least = min(used_fn.get((it[0], it[1]), 0) for it in pool)
            cands = [it for it in pool if used_fn.get((it[0], it[1]), 0) == least]
            it = rng.choice(cands)
            pool.remove(it)
            # drop further variants on the very same node + operator (one mutant per site and operator)
            by_op[o] = [x for x in pool if not (x[0] == it[0] and x[3].lineno == it[3].lineno and x[3].col == it[3].col)]
            used_fn[(it[0], it[1])] = used_fn.get((it[0], it[1]), 0) + 1
            chosen.append(it)
    return chosen, {o: len([s for s in sites if s[3].op == o]) for o in sorted({s[3].op for s in sites})}


def materialise(srcroot, rel, q, k):
    """-> (mutated module source, original snippet, mutated snippet, Site)"""
    src = open(os.path.join(srcroot, rel), encoding="utf-8").read()
    tree = ast.parse(src)
    root = resolve(tree, q)
    s = enum_sites(root, q)[k]
    before = snippet(s.stmt)
    s.apply()
    ast.fix_missing_locations(tree)
    after = "pass" if s.whole else snippet(s.stmt)
    return ast.unparse(tree) + "\n", before, after, s


# ----------------------------------------------------------------------------------------------- running
def run(cmd, cwd, env, timeout):
    """-> (returncode or None on time-out, output)"""
    p = subprocess.Popen(cmd, cwd=cwd, env=env, stdout=subprocess.PIPE, stderr=subprocess.STDOUT, text=True,
                         start_new_session=True)
    try:
        out, _ = p.communicate(timeout=timeout)
        return p.returncode, out
    except subprocess.TimeoutExpired:
        try:
            os.killpg(p.pid, signal.SIGKILL)
        except ProcessLookupError:
            pass
        out, _ = p.communicate()
        return None, out


def base_env(wt):
    env = dict(os.environ)
    env.update(PYTHONPATH=wt, PYTHONWARNINGS="ignore", PYTHONDONTWRITEBYTECODE="1")
    return env


def pytest_signature(wt):
    """(counts, failing ids) of the library's test-suite in the worktree.  NB: without -x, since the unchanged
    suite already has a collection error (test_fileset.py) and -x would stop right there."""
    rc, out = run([PY, "-m", "pytest", "-q", "-p", "no:cacheprovider", "--timeout=300",
                   "--continue-on-collection-errors", "-rfE", "typhon/tests"], wt, base_env(wt), 1500)
    if rc is None:
        return ("timeout",), out[-1500:]
    bad = sorted(re.sub(r" - .*", "", l).strip() for l in out.splitlines() if l.startswith(("FAILED ", "ERROR ")))
    last = [l for l in out.splitlines() if re.search(r"\d+ (passed|failed|error)", l)]
    counts = tuple(sorted(re.findall(r"(\d+) (passed|failed|skipped|errors?)", last[-1]), key=lambda t: t[1])) if last else ("no-summary",)
    return (counts, tuple(bad)), out[-1500:]


def module_of(rel):
    return rel[:-3].replace("/", ".").removesuffix(".__init__")


def check(prop, wt, evdir):
    env = dict(os.environ)
    env.update(TYPHON_REPO=wt, VERIF_EVIDENCE_DIR=evdir)
    env.pop("PYTHONPATH", None)
    t0 = time.time()
    rc, out = run([os.path.join(VERIF, "bin", "check"), prop, "--tier", "quick"], VERIF, env, 1200)
    wall = round(time.time() - t0, 1)
    lines = [l for l in out.splitlines() if l.startswith(("OK ", "VIOLATION ", "INFRA-ERROR"))]
    line = lines[-1] if lines else ""
    rec = {"exit": rc, "check_line": line, "check_wall_s": wall}
    if rc == 1 and line.startswith("VIOLATION"):
        rec["outcome"] = "caught"
        rec["no_input"] = line.rstrip().endswith("no-failing-input-found")
        m = re.search(r"replay=(\S+)", line)
        if m:
            try:
                rp = json.load(open(os.path.join(VERIF, m.group(1))))
                rec["what"] = str(rp.get("what", ""))[:400]
                rec["signature"] = rp.get("signature")
                rec["broken_obligations"] = [str(b)[:200] for b in rp.get("broken_obligations", [])[:4]]
                if rp.get("correspondence_disagreements"):
                    rec["disagreement"] = str(rp["correspondence_disagreements"][0].get("what", ""))[:300]
            except Exception as e:  # replay file is a convenience only
                rec["what"] = f"(replay unreadable: {e})"
    elif rc == 0 and line.startswith("OK"):
        rec["outcome"] = "survived"
    else:
        rec["outcome"] = "infra"
        rec["tail"] = out[-1200:] if rc is not None else "TIME-OUT after 1200 s\n" + out[-600:]
    return rec


class Results:
    def __init__(self, path, meta, resume):
        self.path, self.lock = path, threading.Lock()
        self.data = {"meta": meta, "mutants": []}
        if resume and os.path.exists(path):
            old = json.load(open(path))
            self.data["mutants"] = old.get("mutants", [])

    def have(self, mid):
        return any(m["id"] == mid and m.get("outcome") not in (None, "infra") for m in self.data["mutants"])

    def add(self, rec):
        with self.lock:
            self.data["mutants"] = [m for m in self.data["mutants"] if m["id"] != rec["id"]] + [rec]
            self.data["mutants"].sort(key=lambda m: m["id"])
            tmp = self.path + ".tmp"
            json.dump(self.data, open(tmp, "w"), indent=1)
            os.replace(tmp, self.path)


def log(msg):
    print(time.strftime("%H:%M:%S"), msg, flush=True)


def sweep_property(prop, args, commit, results):
    wt = os.path.join(MUTROOT, f"wt_{prop}")
    evdir = tempfile.mkdtemp(prefix=f"mutev_{prop}_")
    subprocess.run(["git", "-C", REPO, "worktree", "remove", "--force", wt], capture_output=True)
    shutil.rmtree(wt, ignore_errors=True)
    subprocess.run(["git", "-C", REPO, "worktree", "prune"], capture_output=True)
    r = subprocess.run(["git", "-C", REPO, "worktree", "add", "--detach", wt, commit], capture_output=True, text=True)
    if r.returncode != 0:
        log(f"{prop}: cannot create worktree: {r.stderr}")
        return
    try:
        if args.identity:
            chosen = []
            rels = sorted({rel for rel, _ in anchored(prop)})
        else:
            chosen, pool = sample(prop, wt, args.per_prop, args.seed)
            log(f"{prop}: {sum(pool.values())} candidate mutants in {len(anchored(prop))} anchored definitions; sampled {len(chosen)}")
        baseline, _ = pytest_signature(wt)
        log(f"{prop}: test-suite baseline {baseline[0]}")
        jobs = []
        if args.identity:
            jobs.append((f"{args.id_prefix}{prop}-identity", None))
        for i, it in enumerate(chosen):
            jobs.append((f"{args.id_prefix}{prop}-{i + 1:02d}", it))
        for mid, it in jobs:
            if results.have(mid):
                continue
            originals = {}
            if it is None:   # control: every anchored file re-written by ast.unparse, nothing mutated
                for rel in rels:
                    p = os.path.join(wt, rel)
                    originals[rel] = open(p, encoding="utf-8").read()
                    open(p, "w", encoding="utf-8").write(ast.unparse(ast.parse(originals[rel])) + "\n")
                rec = {"id": mid, "property": prop, "file": ",".join(rels), "function": "", "line": 0,
                       "operator": "identity", "variant": "ast.unparse only", "original": "", "mutated": ""}
                mods = [module_of(r) for r in rels]
            else:
                rel, q, k, _ = it
                src, before, after, s = materialise(wt, rel, q, k)
                p = os.path.join(wt, rel)
                originals[rel] = open(p, encoding="utf-8").read()
                open(p, "w", encoding="utf-8").write(src)
                rec = {"id": mid, "property": prop, "file": rel, "function": q, "line": s.lineno,
                       "operator": s.op, "variant": s.variant, "original": before, "mutated": after, "site": k}
                mods = [module_of(rel)]
            try:
                rc, out = run([PY, "-c", "import importlib,sys\nfor m in sys.argv[1:]: importlib.import_module(m)"] + mods,
                              wt, base_env(wt), 300)
                if rc != 0:
                    rec.update(outcome="killed-by-tests", killed_by="import", tail=out[-600:])
                else:
                    sig, tail = pytest_signature(wt)
                    if sig != baseline:
                        new = sorted(set(sig[1] if len(sig) > 1 else ()) - set(baseline[1]))
                        rec.update(outcome="killed-by-tests", killed_by="pytest", tests=new[:6] or [str(sig[0])])
                    else:
                        rec.update(check(prop, wt, evdir))
            finally:
                for rel, txt in originals.items():
                    open(os.path.join(wt, rel), "w", encoding="utf-8").write(txt)
            results.add(rec)
            log(f"{mid} {rec['operator']:12s} {rec['file']}:{rec['line']} -> {rec['outcome']}"
                + (" (no-failing-input-found)" if rec.get("no_input") else "") + f"  [{rec.get('check_wall_s', '-')} s]")
    finally:
        subprocess.run(["git", "-C", REPO, "worktree", "remove", "--force", wt], capture_output=True)
        shutil.rmtree(wt, ignore_errors=True)
        shutil.rmtree(evdir, ignore_errors=True)


def regenerate():
    """translator outputs back to the real /repo"""
    import glob
    for _ in range(2):      # twice: gen_report.json lists the files the LAST run changed (empty again after the 2nd)
        for g in sorted(glob.glob(os.path.join(VERIF, "tools", "py2lean", "gen_*.py"))):
            subprocess.run([PY, g], capture_output=True)
    r = subprocess.run(["git", "-C", VERIF, "status", "--short", "lean"], capture_output=True, text=True)
    return r.stdout.strip()


def cross(args):
    data = json.load(open(args.out))
    recs = {m["id"]: m for m in data["mutants"]}
    pairs = [tuple(x.split(":")) for x in args.cross.split(",")]
    groups = {}
    for mid, prop in pairs:
        groups.setdefault(PKG_OF[prop], []).append((mid, prop))
    lock = threading.Lock()
    out = [c for c in data.get("cross", []) if (c["id"], c["property"]) not in pairs]

    def work(item):
        pkg, todo = item
        wt = os.path.join(MUTROOT, f"wt_x_{pkg}")
        evdir = tempfile.mkdtemp(prefix="mutev_x_")
        subprocess.run(["git", "-C", REPO, "worktree", "remove", "--force", wt], capture_output=True)
        subprocess.run(["git", "-C", REPO, "worktree", "add", "--detach", wt, data["meta"]["repo_commit"]], capture_output=True)
        try:
            for mid, prop in todo:
                rec = recs[mid]
                path = os.path.join(wt, rec["file"])
                orig = open(path, encoding="utf-8").read()
                src, before, after, _ = materialise(wt, rec["file"], rec["function"], rec["site"])
                assert (before, after) == (rec["original"], rec["mutated"])
                open(path, "w", encoding="utf-8").write(src)
                try:
                    r = check(prop, wt, evdir)
                finally:
                    open(path, "w", encoding="utf-8").write(orig)
                r.update(id=mid, property=prop)
                r.pop("tail", None) if r["outcome"] != "infra" else None
                log(f"cross {mid} under {prop}: {r['outcome']}" + (" (no-failing-input-found)" if r.get("no_input") else ""))
                with lock:
                    out.append(r)
        finally:
            subprocess.run(["git", "-C", REPO, "worktree", "remove", "--force", wt], capture_output=True)
            shutil.rmtree(evdir, ignore_errors=True)

    try:
        with ThreadPoolExecutor(max_workers=args.jobs) as ex:
            list(ex.map(work, groups.items()))
    finally:
        data["cross"] = sorted(out, key=lambda c: (c["id"], c["property"]))
        json.dump(data, open(args.out, "w"), indent=1)
        dirty = regenerate()
        log("lean/ after regeneration: " + ("clean" if not dirty else "DIRTY\n" + dirty))


def main():
    ap = argparse.ArgumentParser()
    ap.add_argument("--props", default=",".join(ALL_PROPS))
    ap.add_argument("--per-prop", type=int, default=12)
    ap.add_argument("--seed", type=int, default=0)
    ap.add_argument("--jobs", type=int, default=6)
    ap.add_argument("--out", default=os.path.join(VERIF, "tools", "mutsweep_results.json"))
    ap.add_argument("--resume", action="store_true", help="keep finished mutants of an earlier run of the same sample")
    ap.add_argument("--list", action="store_true", help="only print the sampled mutants")
    ap.add_argument("--identity", action="store_true", help="control run: unparse-only rewrite of the anchored files")
    ap.add_argument("--id-prefix", default="", help="prefix of the mutant ids (e.g. s1- for a second sample)")
    ap.add_argument("--apply", metavar="ID", help="write the mutant ID of the results file into --worktree and stop")
    ap.add_argument("--worktree", help="scratch worktree of /repo (at the commit of the results file) for --apply")
    ap.add_argument("--cross", metavar="ID:Cnn,...", help="run mutants of the results file against the check of ANOTHER "
                    "property (who owns the behaviour a survivor changed?); stored under the key 'cross'")
    args = ap.parse_args()
    props = [p.strip().upper() for p in args.props.split(",") if p.strip()]
    commit = subprocess.run(["git", "-C", REPO, "rev-parse", "HEAD"], capture_output=True, text=True).stdout.strip()
    if args.apply:
        rec = [m for m in json.load(open(args.out))["mutants"] if m["id"] == args.apply][0]
        src, before, after, _ = materialise(args.worktree, rec["file"], rec["function"], rec["site"])
        assert (before, after) == (rec["original"], rec["mutated"]), "worktree is not at the commit of the results file"
        open(os.path.join(args.worktree, rec["file"]), "w", encoding="utf-8").write(src)
        print(f"{args.apply}: {rec['file']}:{rec['line']}  {before}  ->  {after}")
        return
    if args.cross:
        return cross(args)
    if args.list:
        for prop in props:
            chosen, pool = sample(prop, REPO, args.per_prop, args.seed)
            print(f"== {prop}: pool {pool}")
            for i, (rel, q, k, s) in enumerate(chosen):
                _, b, a, _ = materialise(REPO, rel, q, k)
                print(f"{prop}-{i + 1:02d} {s.op:12s} {rel}:{s.lineno} {q}\n      {b}\n   -> {a}")
        return
    os.makedirs(MUTROOT, exist_ok=True)
    meta = {"repo_commit": commit, "seed": args.seed, "per_prop": args.per_prop, "started": time.strftime("%F %T"),
            "operators": dict(OPERATORS)}
    results = Results(args.out, meta, args.resume)
    # scheduling unit = lake package (its properties serialise on the package / run lock anyway, so a
    # second worker would only sit waiting); longest packages first
    groups = {}
    for p in props:
        groups.setdefault(PKG_OF[p], []).append(p)
    queue = sorted(groups.values(), key=lambda g: (-len(g), g[0] not in TRANSLATOR_TIED, g[0]))

    def sweep_group(g):
        for p in g:
            try:
                sweep_property(p, args, commit, results)
            except Exception as e:
                log(f"{p}: sweep crashed: {type(e).__name__}: {e}")

    try:
        with ThreadPoolExecutor(max_workers=args.jobs) as ex:
            for f in [ex.submit(sweep_group, g) for g in queue]:
                f.result()
    finally:
        dirty = regenerate()
        subprocess.run(["git", "-C", REPO, "worktree", "prune"], capture_output=True)
        log("lean/ after regeneration: " + ("clean" if not dirty else "DIRTY\n" + dirty))
    out = {}
    for m in results.data["mutants"]:
        k = m["outcome"] + ("/no-input" if m.get("no_input") else "")
        out.setdefault(m["property"], {}).setdefault(k, 0)
        out[m["property"]][k] += 1
    for p in sorted(out):
        log(f"{p}: {out[p]}")


if __name__ == "__main__":
    main()
